#!/bin/bash
# seedtest.sh <seed-id> <worktree-of-the-agent> <property...>
# 1. confirms the seeded change in a fresh scratch worktree (builds, stable suite green, demo fails with / passes without);
# 2. stores it under /verif/seeded/<seed-id>/; 3. applies it to /repo, runs the checks of the given properties, reverts.
set -u
ID=$1; SRC=$2; shift 2
export GOFLAGS=-mod=mod GOPROXY=off GOSUMDB=off GOTOOLCHAIN=local
# the tree under test: a scratch worktree of /repo HEAD (/repo itself is never modified)
RUT=${RUT:-/tmp/rut}
git -C /repo worktree remove --force $RUT 2>/dev/null; git -C /repo worktree add -q --detach $RUT HEAD || exit 2
W=/tmp/confirm-$ID
git -C /repo worktree remove --force $W 2>/dev/null
git -C /repo worktree add -q --detach $W HEAD || exit 2
DEMO=$(ls $SRC/SEED/ | grep -v patch.diff | grep -v README | head -1)
run_demo() { # in $W
  if [ -d $SRC/SEED/demo ]; then (cd $W && mkdir -p seeddemo && cp $SRC/SEED/demo/*.go seeddemo/ && go run ./seeddemo); return $?; fi
  # place the demo test where the agent placed it
  local placed=$(cd $SRC && git status --porcelain -uall | grep '^??' | awk '{print $2}' | grep '_test.go$' | grep -v '^SEED/demo_test.go' | head -1)
  [ -z "$placed" ] && [ -f $SRC/SEED/demo_test.go ] && placed=SEED/demo_test.go
  [ -z "$placed" ] && placed=seed_demo_test.go
  mkdir -p $(dirname $W/$placed); cp $SRC/$placed $W/$placed
  (cd $W && go test -tags verif -vet=off -count=1 -run 'Seed|Demo' ./$(dirname $placed)/ > /tmp/demo-$ID.out 2>&1); local rc=$?
  tail -8 /tmp/demo-$ID.out
  return $rc
}
echo "== apply patch"; (cd $W && git apply $SRC/SEED/patch.diff) || { echo "patch does not apply"; exit 2; }
echo "== build"; (cd $W && go build ./... ) ; RB=$?
echo "== stable suite with patch"; (cd $W && go test -vet=off -count=1 ./combination/ ./pot/ ./regulator/ ./settlement/ ./testcases/ > /tmp/suite-$ID.out 2>&1); RS=$?; tail -6 /tmp/suite-$ID.out
echo "== demo with patch"; run_demo; R1=$?
echo "== demo on the original tree"; (cd $W && git apply -R $SRC/SEED/patch.diff); run_demo; R0=$?
git -C /repo worktree remove --force $W
echo "confirm: demo_orig=$R0 build=$RB suite=$RS demo_patched=$R1"
mkdir -p /verif/seeded/$ID
cp $SRC/SEED/patch.diff /verif/seeded/$ID/patch.diff
cp -r $SRC/SEED/* /verif/seeded/$ID/ 2>/dev/null
RES=""
if [ $R0 -eq 0 ] && [ $RB -eq 0 ] && [ $R1 -ne 0 ]; then
  git -C $RUT apply /verif/seeded/$ID/patch.diff || exit 2
  for P in "$@"; do
    OUT=$(cd /verif && VERIF_REPO=$RUT VERIF_EVIDENCE_DIR=/verif/work/evidence-seeded ./check $P 2>&1 | grep -v "^KNOWN-FINDING" | tail -4)
    echo "--- check $P on seeded tree:"; echo "$OUT"
    if echo "$OUT" | grep -q "^VIOLATION property=$P"; then RES="$RES $P:caught"; else RES="$RES $P:missed"; fi
    for f in $(echo "$OUT" | grep -o 'replay=[^ ]*' | cut -d= -f2); do cp $f /verif/seeded/$ID/ 2>/dev/null; done
  done
  git -C $RUT checkout -- .
  git -C $RUT status --short
  git -C /verif checkout -- lean/Pokerface/Generated 2>/dev/null   # the files regenerated from the changed tree are not /repo's
else
  RES="not-confirmed"
fi
echo "RESULT $ID:$RES (demo_orig=$R0 build=$RB suite=$RS demo_patched=$R1)"
