#!/bin/bash
# unchanged-tree sweep: every quick check over several seeds; prints only alarms and a summary
# usage: ./sweep.sh <first-seed> <last-seed> [props...]
cd "$(dirname "$0")"
[ -n "$VP_RUN_REPO" ] && export VERIF_REPO=$VP_RUN_REPO
A=$1; B=$2; shift 2
PROPS=${@:-C01 C02 C03 C04 C05 C06 C07 C08 C09 C10 C11 C12 C13 C14 C15 C16 C17 C18 C19 C20}
[ -x lean/.lake/build/bin/pfdriver ] || (cd lean && lake build Pokerface pfdriver > /dev/null 2>&1)
n=0; bad=0
for s in $(seq $A $B); do
  for p in $PROPS; do
    out=$(VERIF_SEED=$s ./check $p 2>&1); rc=$?
    n=$((n+1))
    if [ $rc -ne 0 ]; then bad=$((bad+1)); echo "ALARM seed=$s $p rc=$rc"; echo "$out" | grep -v KNOWN | tail -3; for f in $(echo "$out" | grep -o 'replay=[^ ]*' | cut -d= -f2); do echo "--- $f"; python3 -c "
import json,sys; d=json.load(open('$f')); print(d.get('kind'), d.get('monitor'), str(d.get('msg') or d.get('theorem') or d.get('key'))[:400]); print((d.get('history') or [''])[0][:250]); print([l for l in (d.get('history') or []) if not l.startswith('view')][-6:])"; done; fi
  done
done
echo "sweep done: $n runs, $bad alarms"
