#!/bin/bash
# bentest.sh <id> <worktree-of-the-agent> <property...>
# a BEHAVIOUR-PRESERVING rewrite: confirms it builds and keeps the stable suite green, stores it under /verif/benign/<id>/,
# applies it to /repo, runs the checks of the given properties (expected: exit 0), reverts.
set -u
ID=$1; SRC=$2; shift 2
export GOFLAGS=-mod=mod GOPROXY=off GOSUMDB=off GOTOOLCHAIN=local
# the tree under test: a scratch worktree of /repo HEAD (/repo itself is never modified)
RUT=${RUT:-/tmp/rut}
git -C /repo worktree remove --force $RUT 2>/dev/null; git -C /repo worktree add -q --detach $RUT HEAD || exit 2
mkdir -p /verif/benign/$ID
cp $SRC/SEED/patch.diff $SRC/SEED/README.md /verif/benign/$ID/ 2>/dev/null
W=/tmp/confirm-$ID
git -C /repo worktree remove --force $W 2>/dev/null
git -C /repo worktree add -q --detach $W HEAD || exit 2
(cd $W && git apply /verif/benign/$ID/patch.diff) || { echo "patch does not apply"; exit 2; }
(cd $W && go build ./... && go build -tags verif ./...); RB=$?
(cd $W && go test -vet=off -count=1 ./combination/ ./pot/ ./regulator/ ./settlement/ ./testcases/ > /tmp/suite-$ID.out 2>&1); RS=$?
git -C /repo worktree remove --force $W
RES=""
if [ $RB -eq 0 ] && [ $RS -eq 0 ]; then
  git -C $RUT apply /verif/benign/$ID/patch.diff || exit 2
  for P in "$@"; do
    OUT=$(cd /verif && VERIF_REPO=$RUT VERIF_EVIDENCE_DIR=/verif/work/evidence-seeded ./check $P 2>&1); rc=$?
    echo "--- check $P on rewritten tree (rc=$rc):"; echo "$OUT" | grep -v KNOWN | tail -4
    if [ $rc -eq 0 ]; then RES="$RES $P:quiet"; else
      if echo "$OUT" | grep "^VIOLATION" | grep -qv "no-failing-input-found"; then RES="$RES $P:FALSE-ALARM-with-input"; else RES="$RES $P:broken-tie(no-failing-input-found)"; fi
      for f in $(echo "$OUT" | grep -o 'replay=[^ ]*' | cut -d= -f2); do cp $f /verif/benign/$ID/ 2>/dev/null; done
    fi
  done
  git -C $RUT checkout -- .
  git -C $RUT status --short
  git -C /verif checkout -- lean/Pokerface/Generated 2>/dev/null   # the files regenerated from the changed tree are not /repo's
else
  RES="not-confirmed build=$RB suite=$RS"
fi
echo "RESULT $ID:$RES"
